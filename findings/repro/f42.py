import cohdl
from cohdl import Bit, Port, Signal
from cohdl import std

class F42(cohdl.Entity):
    clk = Port.input(Bit)
    a = Port.input(Bit)
    o = Port.output(Bit)

    def architecture(self):
        @std.sequential(std.Clock(self.clk))
        def proc():
            with cohdl.always:
                self.o <<= self.a          # driven by the concurrent 'always' block
            self.o <<= ~self.a             # and by the clocked process

try:
    out = std.VhdlCompiler.to_string(F42)
    print("ACCEPTED")
    print("\n".join(l for l in out.splitlines() if "buffer_o" in l))
except BaseException as e:
    print("REJECTED:", type(e).__name__, str(e)[:100])
