# F63 (C10): `f(a=1, **{"a": 2})` and `f(**{1: 2})` are TypeErrors in CPython; the tracer let the later keyword
# overwrite the earlier one / passed the non-string key on.  Exits 0 when both are rejected.
import cohdl
from cohdl import Entity, Port, Bit, std

def f(a, b=0):
    return (a, b)

def mk(kind):
    class E(Entity):
        o = Port.output(Bit)
        def architecture(self):
            @std.concurrent
            def logic():
                if kind == 0:
                    f(a=1, **{"a": 2})
                else:
                    f(1, **{1: 2})
    return E

bad = []
for kind in (0, 1):
    try:
        std.VhdlCompiler.to_string(mk(kind))
        bad.append(kind)
    except AssertionError as e:
        print("rejected:", str(e).splitlines()[-1][:100])
assert not bad, f"accepted: {bad}"
