import cohdl, re
from cohdl import std, Port, Bit, BitVector, Signal
class E(cohdl.Entity, attributes={"reserved_names": ["Other_Name"]}):
    a = Port.input(Bit); c = Port.output(Bit)
    def architecture(self):
        s = Signal[Bit](name="clk_out")
        r = Signal[Bit](name="other_name")
        @std.concurrent
        def logic():
            s.next = self.a
            r.next = s
            self.c <<= r
t = std.VhdlCompiler.to_string(E, additional_reserved_names={"CLK_OUT"})
bad = [w for w in ("clk_out", "other_name") if re.search(rf"signal {w} :", t)]
print(bad); print("PASS" if not bad else "FAIL"); raise SystemExit(bool(bad))
