# F23 (C10, known finding, low): `~x` dispatches to __inv__ instead of __invert__
import cohdl
from cohdl import std, Port, Bit
class OnlyInv:
    def __inv__(self): return "inv"
class E(cohdl.Entity):
    a = Port.input(Bit); o = Port.output(Bit)
    def architecture(self):
        @std.concurrent
        def p():
            r = ~OnlyInv()
            self.o <<= self.a
try:
    std.VhdlCompiler.to_string(E); traced = "accepted"
except BaseException as e:
    traced = "rejected"
try:
    ~OnlyInv(); py = "accepted"
except TypeError:
    py = "TypeError"
print("traced:", traced, "cpython:", py)
bad = traced == "accepted" and py == "TypeError"
print("FAIL: accepted where CPython raises TypeError" if bad else "PASS"); raise SystemExit(bad)
