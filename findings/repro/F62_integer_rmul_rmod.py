import cohdl
from cohdl import Entity, Port, Signal, Integer, std

r = []
try:
    r.append(int(3 * Integer(4)))
except TypeError as e:
    r.append(("rmul", str(e)))
try:
    r.append(int(7 % Integer(4)))
except TypeError as e:
    r.append(("rmod", str(e)))
print(r)
class E(Entity):
    a = Port.input(Integer)
    o = Port.output(Integer)
    o2 = Port.output(Integer)
    def architecture(self):
        @std.concurrent
        def l():
            self.o <<= 3 * self.a
            self.o2 <<= 7 % self.a
try:
    s = std.VhdlCompiler.to_string(E)
    print([l for l in s.splitlines() if '<=' in l])
except Exception as e:
    print("compile failed:", type(e).__name__, str(e)[:300])
assert r == [12, 3], r
