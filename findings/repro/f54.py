"""PRE-EXISTING (unmodified tree): `await false` (std.wait_forever()) as the first statement of a
coroutine stops the state machine - nothing that follows may ever execute.  If a `while`
loop follows directly, the loop (and everything after it) IS emitted into the first state and
executes from clock 0 on: the Await handler returns "no open blocks", but the While handler
does not check for an empty open-block list and, because the first state is still empty
(at_start), claims the first state as its loop head.
"""
from cohdl import Entity, Port, Bit, Unsigned, false
from cohdl import std


class E(Entity):
    clk = Port.input(Bit)
    a = Port.input(Bit)
    o = Port.output(Unsigned[4], default=0)
    p = Port.output(Bit, default=False)

    def architecture(self):
        @std.sequential(std.Clock(self.clk))
        async def proc():
            await false  # wait forever
            while self.a:
                self.o <<= self.o + 1
            self.p <<= True


vhdl = std.VhdlCompiler.to_string(E)
proc = vhdl[vhdl.index("process(") :]
print(proc)
if "buffer_o <=" in proc or "buffer_p <=" in proc:
    print("WRONG: code after `await false` is emitted and executes (o counts while a=1, p is set)")
else:
    print("ok: nothing after `await false` is emitted")
